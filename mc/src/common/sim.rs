//! Closed-system simulation seams for async rs-matter nodes: an adversarial datagram network,
//! a flag-waker executor for the nodes' root futures, and owned-with-'static-borrows boxes.

use std::cell::RefCell;
use std::collections::VecDeque;
use std::future::Future;
use std::net::{Ipv6Addr, SocketAddr, SocketAddrV6};
use std::pin::Pin;
use std::rc::Rc;
use std::sync::atomic::{AtomicBool, Ordering};
use std::sync::Arc;
use std::task::{Context, Poll, Wake, Waker};

use rs_matter::error::Error;
use rs_matter::transport::network::{Address, NetworkReceive, NetworkSend};

use super::vclock;

// ------------------------------------------------------------------------------------ owned boxes

/// A heap object handed out as `&'static` to self-referential futures; freed on drop.
/// The owner must drop every borrower (the executor's futures) before this.
pub struct Owned<T>(*mut T);

impl<T> Owned<T> {
    pub fn new(v: T) -> Self {
        Self(Box::into_raw(Box::new(v)))
    }
    pub fn from_box(b: Box<T>) -> Self {
        Self(Box::into_raw(b))
    }
    pub fn get(&self) -> &'static T {
        unsafe { &*self.0 }
    }
}

impl<T> Drop for Owned<T> {
    fn drop(&mut self) {
        unsafe { drop(Box::from_raw(self.0)) }
    }
}

// ------------------------------------------------------------------------------------ network

#[derive(Clone, Debug)]
pub struct Dgram {
    pub id: u64,
    pub from: usize,
    pub to: usize,
    pub bytes: Vec<u8>,
    pub sent_at_us: u64,
}

#[derive(Default)]
pub struct NetState {
    pub inflight: Vec<Dgram>,
    pub inbox: Vec<VecDeque<(Vec<u8>, usize)>>,
    rx_wakers: Vec<Option<Waker>>,
    /// every datagram ever put on the wire by a node, in order
    pub log: Vec<Dgram>,
    /// every datagram handed to a node's transport: (to, from, bytes, at_us)
    pub delivered: Vec<(usize, usize, Vec<u8>, u64)>,
    next_id: u64,
}

#[derive(Clone)]
pub struct Net(pub Rc<RefCell<NetState>>);

pub fn addr_of(node: usize) -> Address {
    Address::Udp(SocketAddr::V6(SocketAddrV6::new(Ipv6Addr::new(0xfe80, 0, 0, 0, 0, 0, 0, 1 + node as u16), 5540, 0, 0)))
}

pub fn node_of(addr: &Address) -> Option<usize> {
    match addr {
        Address::Udp(SocketAddr::V6(a)) => {
            let s = a.ip().segments();
            if s[0] == 0xfe80 && s[7] >= 1 {
                Some(s[7] as usize - 1)
            } else {
                None
            }
        }
        _ => None,
    }
}

impl Net {
    pub fn new(nodes: usize) -> Self {
        let mut s = NetState::default();
        for _ in 0..nodes {
            s.inbox.push(VecDeque::new());
            s.rx_wakers.push(None);
        }
        Net(Rc::new(RefCell::new(s)))
    }

    pub fn end(&self, me: usize) -> NetEnd {
        NetEnd { net: self.clone(), me }
    }

    pub fn inflight_len(&self) -> usize {
        self.0.borrow().inflight.len()
    }

    /// Hand the k-th oldest in-flight datagram to its destination (optionally keeping a copy in flight).
    pub fn deliver(&self, k: usize, keep: bool) -> Option<Dgram> {
        let mut s = self.0.borrow_mut();
        if k >= s.inflight.len() {
            return None;
        }
        let d = if keep { s.inflight[k].clone() } else { s.inflight.remove(k) };
        if d.to < s.inbox.len() {
            s.inbox[d.to].push_back((d.bytes.clone(), d.from));
            let at = vclock::now();
            s.delivered.push((d.to, d.from, d.bytes.clone(), at));
            if let Some(w) = s.rx_wakers[d.to].take() {
                drop(s);
                w.wake();
            }
        }
        Some(d)
    }

    pub fn drop_dgram(&self, k: usize) -> Option<Dgram> {
        let mut s = self.0.borrow_mut();
        if k >= s.inflight.len() {
            return None;
        }
        Some(s.inflight.remove(k))
    }

    /// Inject a datagram as if `from` had sent it (attacker / harness-made traffic).
    pub fn inject(&self, from: usize, to: usize, bytes: Vec<u8>) {
        let mut s = self.0.borrow_mut();
        let id = s.next_id;
        s.next_id += 1;
        s.inflight.push(Dgram { id, from, to, bytes, sent_at_us: vclock::now() });
    }
}

pub struct NetEnd {
    net: Net,
    me: usize,
}

impl NetworkSend for NetEnd {
    async fn send_to(&mut self, data: &[u8], addr: Address) -> Result<(), Error> {
        let mut s = self.net.0.borrow_mut();
        let id = s.next_id;
        s.next_id += 1;
        // unknown destinations (multicast etc.) go to node usize::MAX: logged, never delivered
        let to = node_of(&addr).unwrap_or(usize::MAX);
        let d = Dgram { id, from: self.me, to, bytes: data.to_vec(), sent_at_us: vclock::now() };
        s.log.push(d.clone());
        if to != usize::MAX {
            s.inflight.push(d);
        }
        Ok(())
    }
}

struct WaitAvail<'a>(&'a NetEnd);

impl Future for WaitAvail<'_> {
    type Output = ();
    fn poll(self: Pin<&mut Self>, cx: &mut Context<'_>) -> Poll<()> {
        let mut s = self.0.net.0.borrow_mut();
        if !s.inbox[self.0.me].is_empty() {
            Poll::Ready(())
        } else {
            s.rx_wakers[self.0.me] = Some(cx.waker().clone());
            Poll::Pending
        }
    }
}

impl NetworkReceive for NetEnd {
    async fn wait_available(&mut self) -> Result<(), Error> {
        WaitAvail(self).await;
        Ok(())
    }

    async fn recv_from(&mut self, buffer: &mut [u8]) -> Result<(usize, Address), Error> {
        WaitAvail(self).await;
        let (bytes, from) = self.net.0.borrow_mut().inbox[self.me].pop_front().unwrap();
        let n = bytes.len().min(buffer.len());
        buffer[..n].copy_from_slice(&bytes[..n]);
        Ok((n, addr_of(from)))
    }
}

// ------------------------------------------------------------------------------------ executor

struct Flag(AtomicBool);

impl Wake for Flag {
    fn wake(self: Arc<Self>) {
        self.0.store(true, Ordering::SeqCst);
    }
    fn wake_by_ref(self: &Arc<Self>) {
        self.0.store(true, Ordering::SeqCst);
    }
}

struct Task {
    fut: Option<Pin<Box<dyn Future<Output = ()>>>>,
    flag: Arc<Flag>,
    waker: Waker,
    name: &'static str,
}

#[derive(Default)]
pub struct Exec {
    tasks: Vec<Task>,
    pub polls: u64,
}

impl Exec {
    pub fn new() -> Self {
        Self::default()
    }

    /// Add a root future (polled first at the next `run`). Returns its task index.
    pub fn spawn(&mut self, name: &'static str, fut: impl Future<Output = ()> + 'static) -> usize {
        let flag = Arc::new(Flag(AtomicBool::new(true)));
        let waker = Waker::from(flag.clone());
        self.tasks.push(Task { fut: Some(Box::pin(fut)), flag, waker, name });
        self.tasks.len() - 1
    }

    /// Drop a root future (cancellation of that task), releasing its timers.
    pub fn cancel(&mut self, idx: usize) {
        if let Some(t) = self.tasks.get_mut(idx) {
            t.fut = None;
            vclock::forget(&t.waker);
        }
    }

    /// Mark a task as woken (the harness changed something it polls for).
    pub fn wake(&mut self, idx: usize) {
        if let Some(t) = self.tasks.get(idx) {
            t.flag.0.store(true, Ordering::SeqCst);
        }
    }

    pub fn is_finished(&self, idx: usize) -> bool {
        self.tasks.get(idx).map(|t| t.fut.is_none()).unwrap_or(true)
    }

    /// Poll woken tasks until nobody is woken. Errors on a wake storm (livelock).
    pub fn run(&mut self) -> Result<(), String> {
        for round in 0..100_000u32 {
            let mut any = false;
            for t in self.tasks.iter_mut() {
                if t.fut.is_some() && t.flag.0.swap(false, Ordering::SeqCst) {
                    any = true;
                    self.polls += 1;
                    let mut cx = Context::from_waker(&t.waker);
                    if let Poll::Ready(()) = t.fut.as_mut().unwrap().as_mut().poll(&mut cx) {
                        t.fut = None;
                    }
                }
            }
            if !any {
                return Ok(());
            }
            if round >= 99_990 && std::env::var_os("MC_TRACE").is_some() {
                eprintln!("round {}: woken {:?}", round, self.tasks.iter().filter(|t| t.flag.0.load(Ordering::SeqCst)).map(|t| t.name).collect::<Vec<_>>());
            }
            if round == 99_999 {
                return Err(format!("tasks keep waking each other without a timer or datagram in between ({})", self.tasks.iter().map(|t| t.name).collect::<Vec<_>>().join(",")));
            }
        }
        Ok(())
    }

    /// Advance the virtual clock to the next alarm (if any, and not beyond `limit_us`) and run.
    pub fn tick(&mut self, limit_us: u64) -> Result<bool, String> {
        match vclock::next_deadline() {
            Some(t) if t <= limit_us => {
                vclock::advance_to(t);
                self.run()?;
                Ok(true)
            }
            _ => Ok(false),
        }
    }
}

impl Drop for Exec {
    fn drop(&mut self) {
        for t in self.tasks.iter_mut() {
            t.fut = None;
        }
    }
}
