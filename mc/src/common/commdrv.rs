//! Commissioning driver: a device that runs the real root-endpoint data model (General
//! Commissioning, Operational Credentials, Access Control, Administrator Commissioning, Group Key
//! Management, ...) over a recording key-value store and can be restarted from it, plus the
//! harness-side encoders of the administrative commands.

use core::num::NonZeroU8;
use std::cell::RefCell;
use std::rc::Rc;

use embassy_futures::select::select3;

use rs_matter::dm::clusters::binding::{self, BindingHandler, Bindings};
use rs_matter::dm::clusters::groups::{self, ClusterHandler as _};
use rs_matter::dm::clusters::user_label::{self, UserLabelHandler, UserLabels};
use rs_matter::dm::devices::DEV_TYPE_ROOT_NODE;
use rs_matter::dm::endpoints::EthSysHandlerBuilder;
use rs_matter::dm::networks::eth::EthNetwork;
use rs_matter::dm::{Async, Dataver, Endpoint, EpClMatcher, Node};
use rs_matter::im::{EthInteractionModelState, InteractionModel};
use rs_matter::respond::Responder;
use rs_matter::tlv::{TLVTag, TLVWrite};
use rs_matter::transport::exchange::{Exchange, MatterBuffers, MessageMeta};
use rs_matter::transport::network::NoNetwork;
use rs_matter::utils::storage::WriteBuf;
use rs_matter::{clusters, devices, Matter};

use super::imdrv::{self, Answer};
use super::kv::RecKv;
use super::nodes;
use super::rng::SeededRng;
use super::sim::{Exec, Net, Owned};

pub const CL_GEN_COMM: u32 = 0x30;
pub const CL_OP_CREDS: u32 = 0x3E;
pub const CL_ADMIN_COMM: u32 = 0x3C;
pub const CL_ACL: u32 = 0x1F;
pub const CL_GRP_KEY: u32 = 0x3F;

/// Whether devices also run the job that flushes the CASE resumption cache to the store (a store
/// operation 500 ms after a change of the cache). Process-wide: set by the checks that observe it.
pub static PERSIST_RESUMPTION: std::sync::atomic::AtomicBool = std::sync::atomic::AtomicBool::new(false);

pub const CL_GROUPS: u32 = 0x04;
pub const CL_BINDING: u32 = 0x1E;
pub const CL_USER_LABEL: u32 = 0x41;
pub const CL_BASIC_INFO: u32 = 0x28;

/// The root endpoint of an Ethernet device plus the clusters whose settings the properties name next to
/// the fabric table: Groups (group membership of the endpoint), UserLabel and Binding (as the
/// repository's own system-test device composes them on endpoint 0).
const EP0: Endpoint<'static> = Endpoint {
    id: 0,
    device_types: devices!(DEV_TYPE_ROOT_NODE),
    clusters: clusters!(eth; groups::GroupsHandler::CLUSTER, user_label::CLUSTER, binding::CLUSTER),
    client_clusters: &[],
    unique_id: None,
    semantic_tags: &[],
};
const NODE: Node<'static> = Node { endpoints: &[EP0] };

pub type BindingsReg = Bindings<8>;
pub type UserLabelsReg = UserLabels<1, 4>;

macro_rules! handler {
    ($rand:expr, $bindings:expr, $labels:expr) => {{
        let mut r = $rand;
        let (d1, d2, d3) = (Dataver::new_rand(&mut r), Dataver::new_rand(&mut r), Dataver::new_rand(&mut r));
        EthSysHandlerBuilder::new()
            .build(r)
            .chain(EpClMatcher::new(Some(0), Some(groups::GroupsHandler::CLUSTER.id)), Async(groups::GroupsHandler::new(d1).adapt()))
            .chain(EpClMatcher::new(Some(0), Some(user_label::CLUSTER.id)), Async(user_label::HandlerAdaptor(UserLabelHandler::new(d2, 0, $labels))))
            .chain(EpClMatcher::new(Some(0), Some(binding::CLUSTER.id)), Async(binding::HandlerAdaptor(BindingHandler::new(d3, 0, $bindings))))
    }};
}

/// One incarnation of the device: a `Matter` object re-hydrated from `kv`, its IM stack and the
/// task that runs them. Dropping it (after cancelling the task) is a power cycle.
pub struct Device {
    pub matter: Owned<Matter<'static>>,
    pub task: usize,
    pub boot_error: Rc<RefCell<Option<String>>>,
    /// the Interaction Model state (subscription table, events)
    pub im_state: Owned<EthInteractionModelState>,
    pub bindings: Owned<BindingsReg>,
    pub user_labels: Owned<UserLabelsReg>,
    _keep: Vec<Box<dyn std::any::Any>>,
}

/// Boot a device from the store. `net_idx` is its place on the simulated network.
pub fn boot(exec: &mut Exec, net: &Net, net_idx: usize, kv: &RecKv, seed: u64, open_window: bool) -> Device {
    let matter = Owned::from_box(nodes::new_matter());
    let md = matter.get();
    let buffers: Owned<MatterBuffers> = Owned::new(MatterBuffers::new());
    let state: Owned<EthInteractionModelState> = Owned::new(EthInteractionModelState::new(EthNetwork::new_default()));
    let boot_error = Rc::new(RefCell::new(None));
    let bindings: Owned<BindingsReg> = Owned::new(Bindings::new());
    let user_labels: Owned<UserLabelsReg> = Owned::new(UserLabels::new());
    let (bi, ul) = (bindings.get(), user_labels.get());
    let (send, recv) = (net.end(net_idx), net.end(net_idx));
    let (b, st) = (buffers.get(), state.get());
    let kv2 = kv.clone();
    let be = boot_error.clone();
    let task = exec.spawn("device", async move {
        let c = nodes::crypto(SeededRng::new(seed));
        let kvh = md.kv(kv2);
        if let Err(e) = md.startup(&kvh) {
            *be.borrow_mut() = Some(format!("Matter::startup: {:?}", e.code()));
            return;
        }
        st.suppress_start_up_event();
        let rand = SeededRng::new(seed + 1);
        let im = InteractionModel::new(md, &c, b, (NODE, handler!(rand, bi, ul)), &kvh, st);
        if let Err(e) = im.startup().await {
            *be.borrow_mut() = Some(format!("InteractionModel::startup: {:?}", e.code()));
            return;
        }
        if open_window && !md.has_fabrics() {
            if let Err(e) = md.open_basic_comm_window(900, &c, &()) {
                *be.borrow_mut() = Some(format!("open window: {:?}", e.code()));
                return;
            }
        }
        let responder = Responder::new_default(&im);
        if PERSIST_RESUMPTION.load(std::sync::atomic::Ordering::Relaxed) {
            // (the resumption cache is flushed to the store by a background job of its own, as in the examples)
            // (the job returns when the store fails: the application starts it again)
            let flush = async {
                loop {
                    let _ = md.run_persist_resumption(&kvh, embassy_time::Duration::from_millis(500)).await;
                }
            };
            let _ = embassy_futures::select::select4(md.run(&c, send, recv, NoNetwork), responder.run::<3>(), im.run(), flush).await;
        } else {
            let _ = select3(md.run(&c, send, recv, NoNetwork), responder.run::<3>(), im.run()).await;
        }
    });
    Device { matter, task, boot_error, im_state: state, bindings, user_labels, _keep: vec![Box::new(buffers)] }
}

/// Start a node from this store content, factory-reset it (Matter level and Interaction Model
/// level) and return what is left in the store.
pub fn factory_reset(map: &std::collections::BTreeMap<u16, Vec<u8>>) -> Result<std::collections::BTreeMap<u16, Vec<u8>>, String> {
    let kv = RecKv::from_map(map.clone());
    let matter = Owned::from_box(nodes::new_matter());
    let md = matter.get();
    let buffers: Owned<MatterBuffers> = Owned::new(MatterBuffers::new());
    let state: Owned<EthInteractionModelState> = Owned::new(EthInteractionModelState::new(EthNetwork::new_default()));
    let out: Rc<RefCell<Option<Result<(), String>>>> = Rc::new(RefCell::new(None));
    let bindings: Owned<BindingsReg> = Owned::new(Bindings::new());
    let user_labels: Owned<UserLabelsReg> = Owned::new(UserLabels::new());
    let (bi, ul) = (bindings.get(), user_labels.get());
    let mut exec = Exec::new();
    {
        let (b, st) = (buffers.get(), state.get());
        let kv2 = kv.clone();
        let out2 = out.clone();
        exec.spawn("reset", async move {
            let c = nodes::crypto(SeededRng::new(31));
            let kvh = md.kv(kv2);
            let r: Result<(), rs_matter::error::Error> = async {
                md.startup(&kvh)?;
                let im = InteractionModel::new(md, &c, b, (NODE, handler!(SeededRng::new(32), bi, ul)), &kvh, st);
                im.startup().await?;
                im.factory_reset().await?;
                md.factory_reset(&kvh)?;
                Ok(())
            }
            .await;
            *out2.borrow_mut() = Some(r.map_err(|e| format!("{:?}", e.code())));
        });
    }
    exec.run()?;
    drop(exec);
    let r = out.borrow().clone();
    let _ = (&buffers, &state, &matter, &bindings, &user_labels);
    match r {
        Some(Ok(())) => Ok(kv.map()),
        Some(Err(e)) => Err(e),
        None => Err("the reset did not complete".into()),
    }
}

// ------------------------------------------------------------------------------------ commands

/// An invoke request with one command whose fields are written by `fields` (into a structure that is
/// already open).
pub fn invoke_with(cluster: u32, cmd: u32, timed: bool, fields: impl FnOnce(&mut WriteBuf<'_>)) -> Vec<u8> {
    let mut buf = vec![0u8; 2048];
    let mut tw = WriteBuf::new(&mut buf);
    tw.start_struct(&TLVTag::Anonymous).unwrap();
    tw.bool(&TLVTag::Context(0), false).unwrap();
    tw.bool(&TLVTag::Context(1), timed).unwrap();
    tw.start_array(&TLVTag::Context(2)).unwrap();
    tw.start_struct(&TLVTag::Anonymous).unwrap();
    tw.start_list(&TLVTag::Context(0)).unwrap();
    tw.u16(&TLVTag::Context(0), 0).unwrap();
    tw.u32(&TLVTag::Context(1), cluster).unwrap();
    tw.u32(&TLVTag::Context(2), cmd).unwrap();
    tw.end_container().unwrap();
    tw.start_struct(&TLVTag::Context(1)).unwrap();
    fields(&mut tw);
    tw.end_container().unwrap();
    tw.end_container().unwrap();
    tw.end_container().unwrap();
    tw.u8(&TLVTag::Context(0xFF), 12).unwrap();
    tw.end_container().unwrap();
    tw.as_slice().to_vec()
}

pub fn arm_fail_safe(expiry_s: u16, breadcrumb: u64) -> Vec<u8> {
    invoke_with(CL_GEN_COMM, 0, false, |tw| {
        tw.u16(&TLVTag::Context(0), expiry_s).unwrap();
        tw.u64(&TLVTag::Context(1), breadcrumb).unwrap();
    })
}

pub fn commissioning_complete() -> Vec<u8> {
    invoke_with(CL_GEN_COMM, 4, false, |_| {})
}

pub fn csr_request(for_update: bool) -> Vec<u8> {
    invoke_with(CL_OP_CREDS, 4, false, |tw| {
        tw.str(&TLVTag::Context(0), &[0x5a; 32]).unwrap();
        if for_update {
            tw.bool(&TLVTag::Context(1), true).unwrap();
        }
    })
}

pub fn add_trusted_root(cert: &[u8]) -> Vec<u8> {
    invoke_with(CL_OP_CREDS, 11, false, |tw| {
        tw.str(&TLVTag::Context(0), cert).unwrap();
    })
}

pub fn add_noc(noc: &[u8], icac: Option<&[u8]>, ipk: &[u8; 16], admin_subject: u64) -> Vec<u8> {
    invoke_with(CL_OP_CREDS, 6, false, |tw| {
        tw.str(&TLVTag::Context(0), noc).unwrap();
        if let Some(i) = icac {
            tw.str(&TLVTag::Context(1), i).unwrap();
        }
        tw.str(&TLVTag::Context(2), ipk).unwrap();
        tw.u64(&TLVTag::Context(3), admin_subject).unwrap();
        tw.u16(&TLVTag::Context(4), 0xFFF1).unwrap();
    })
}

pub fn update_noc(noc: &[u8], icac: Option<&[u8]>) -> Vec<u8> {
    invoke_with(CL_OP_CREDS, 7, false, |tw| {
        tw.str(&TLVTag::Context(0), noc).unwrap();
        if let Some(i) = icac {
            tw.str(&TLVTag::Context(1), i).unwrap();
        }
    })
}

pub fn remove_fabric(fab_idx: u8) -> Vec<u8> {
    invoke_with(CL_OP_CREDS, 10, false, |tw| {
        tw.u8(&TLVTag::Context(0), fab_idx).unwrap();
    })
}

pub fn update_fabric_label(label: &str) -> Vec<u8> {
    invoke_with(CL_OP_CREDS, 9, false, |tw| {
        tw.utf8(&TLVTag::Context(0), label).unwrap();
    })
}

/// OperationalCredentials::SetVIDVerificationStatement (vendor id only)
pub fn set_vid_verification_statement(vendor_id: u16) -> Vec<u8> {
    invoke_with(CL_OP_CREDS, 0x0C, false, |tw| {
        tw.u16(&TLVTag::Context(0), vendor_id).unwrap();
        // an 85-byte VID verification statement
        let vvs: Vec<u8> = (0..85u8).map(|i| i.wrapping_mul(3).wrapping_add(1)).collect();
        tw.str(&TLVTag::Context(1), &vvs).unwrap();
    })
}

/// GroupKeyManagement::KeySetWrite with one epoch key
pub fn key_set_write(key_set_id: u16) -> Vec<u8> {
    invoke_with(CL_GRP_KEY, 0, false, |tw| {
        tw.start_struct(&TLVTag::Context(0)).unwrap();
        tw.u16(&TLVTag::Context(0), key_set_id).unwrap();
        tw.u8(&TLVTag::Context(1), 0).unwrap();
        // three epoch keys with increasing start times
        tw.str(&TLVTag::Context(2), &[0x33; 16]).unwrap();
        tw.u64(&TLVTag::Context(3), 1).unwrap();
        tw.str(&TLVTag::Context(4), &[0x44; 16]).unwrap();
        tw.u64(&TLVTag::Context(5), 0x1_0000_0002).unwrap();
        tw.str(&TLVTag::Context(6), &[0x55; 16]).unwrap();
        tw.u64(&TLVTag::Context(7), 0xFFFF_FFFF_FFFF_FFF0).unwrap();
        tw.end_container().unwrap();
    })
}

pub fn revoke_commissioning() -> Vec<u8> {
    invoke_with(CL_ADMIN_COMM, 2, true, |_| {})
}

pub fn open_basic_window(timeout_s: u16) -> Vec<u8> {
    invoke_with(CL_ADMIN_COMM, 1, true, |tw| {
        tw.u16(&TLVTag::Context(0), timeout_s).unwrap();
    })
}

/// A write of the whole ACL attribute: entries = (privilege 1..5, auth mode 2 = CASE, subjects)
pub fn write_acl(entries: &[(u8, Vec<u64>)]) -> Vec<u8> {
    let mut buf = vec![0u8; 2048];
    let mut tw = WriteBuf::new(&mut buf);
    tw.start_struct(&TLVTag::Anonymous).unwrap();
    tw.bool(&TLVTag::Context(0), false).unwrap();
    tw.bool(&TLVTag::Context(1), false).unwrap();
    tw.start_array(&TLVTag::Context(2)).unwrap();
    tw.start_struct(&TLVTag::Anonymous).unwrap();
    tw.start_list(&TLVTag::Context(1)).unwrap();
    tw.u16(&TLVTag::Context(2), 0).unwrap();
    tw.u32(&TLVTag::Context(3), CL_ACL).unwrap();
    tw.u32(&TLVTag::Context(4), 0).unwrap();
    tw.end_container().unwrap();
    tw.start_array(&TLVTag::Context(2)).unwrap();
    for (privilege, subjects) in entries {
        tw.start_struct(&TLVTag::Anonymous).unwrap();
        tw.u8(&TLVTag::Context(1), *privilege).unwrap();
        tw.u8(&TLVTag::Context(2), 2).unwrap();
        tw.start_array(&TLVTag::Context(3)).unwrap();
        for s in subjects {
            tw.u64(&TLVTag::Anonymous, *s).unwrap();
        }
        tw.end_container().unwrap();
        if *privilege == 5 {
            tw.null(&TLVTag::Context(4)).unwrap();
        } else {
            // targets of several shapes (three per entry at most): a cluster, a device type, cluster + endpoint
            tw.start_array(&TLVTag::Context(4)).unwrap();
            for (cl, ep, dt) in [(Some(0x28u32), None, None), (None, None, Some(0x16u32)), (Some(0x1F), Some(0u16), None)] {
                tw.start_struct(&TLVTag::Anonymous).unwrap();
                match cl {
                    Some(c) => tw.u32(&TLVTag::Context(0), c).unwrap(),
                    None => tw.null(&TLVTag::Context(0)).unwrap(),
                }
                match ep {
                    Some(e) => tw.u16(&TLVTag::Context(1), e).unwrap(),
                    None => tw.null(&TLVTag::Context(1)).unwrap(),
                }
                match dt {
                    Some(d) => tw.u32(&TLVTag::Context(2), d).unwrap(),
                    None => tw.null(&TLVTag::Context(2)).unwrap(),
                }
                tw.end_container().unwrap();
            }
            tw.end_container().unwrap();
        }
        tw.end_container().unwrap();
    }
    tw.end_container().unwrap();
    tw.end_container().unwrap();
    tw.end_container().unwrap();
    tw.bool(&TLVTag::Context(3), false).unwrap();
    tw.u8(&TLVTag::Context(0xFF), 12).unwrap();
    tw.end_container().unwrap();
    tw.as_slice().to_vec()
}

/// A write of one whole attribute on endpoint 0: `data` writes the value with tag Context(2).
pub fn write_attr(cluster: u32, attr: u32, data: impl FnOnce(&mut WriteBuf<'_>)) -> Vec<u8> {
    let mut buf = vec![0u8; 2048];
    let mut tw = WriteBuf::new(&mut buf);
    tw.start_struct(&TLVTag::Anonymous).unwrap();
    tw.bool(&TLVTag::Context(0), false).unwrap();
    tw.bool(&TLVTag::Context(1), false).unwrap();
    tw.start_array(&TLVTag::Context(2)).unwrap();
    tw.start_struct(&TLVTag::Anonymous).unwrap();
    tw.start_list(&TLVTag::Context(1)).unwrap();
    tw.u16(&TLVTag::Context(2), 0).unwrap();
    tw.u32(&TLVTag::Context(3), cluster).unwrap();
    tw.u32(&TLVTag::Context(4), attr).unwrap();
    tw.end_container().unwrap();
    data(&mut tw);
    tw.end_container().unwrap();
    tw.end_container().unwrap();
    tw.bool(&TLVTag::Context(3), false).unwrap();
    tw.u8(&TLVTag::Context(0xFF), 12).unwrap();
    tw.end_container().unwrap();
    tw.as_slice().to_vec()
}

/// GroupKeyManagement::GroupKeyMap := [(group id, key set id)]
pub fn write_group_key_map(entries: &[(u16, u16)]) -> Vec<u8> {
    write_attr(CL_GRP_KEY, 0, |tw| {
        tw.start_array(&TLVTag::Context(2)).unwrap();
        for (g, k) in entries {
            tw.start_struct(&TLVTag::Anonymous).unwrap();
            tw.u16(&TLVTag::Context(1), *g).unwrap();
            tw.u16(&TLVTag::Context(2), *k).unwrap();
            tw.end_container().unwrap();
        }
        tw.end_container().unwrap();
    })
}

/// GroupKeyManagement::KeySetRemove
pub fn key_set_remove(key_set_id: u16) -> Vec<u8> {
    invoke_with(CL_GRP_KEY, 3, false, |tw| tw.u16(&TLVTag::Context(0), key_set_id).unwrap())
}

/// Groups::RemoveAllGroups on endpoint 0
pub fn remove_all_groups() -> Vec<u8> {
    invoke_with(CL_GROUPS, 4, false, |_| {})
}

/// Groups::AddGroup on endpoint 0
pub fn add_group(group_id: u16, name: &str) -> Vec<u8> {
    invoke_with(CL_GROUPS, 0, false, |tw| {
        tw.u16(&TLVTag::Context(0), group_id).unwrap();
        tw.utf8(&TLVTag::Context(1), name).unwrap();
    })
}

/// Binding::Binding := [unicast target (node, endpoint, cluster)]
pub fn write_binding(targets: &[(u64, u16, u32)]) -> Vec<u8> {
    write_attr(CL_BINDING, 0, |tw| {
        tw.start_array(&TLVTag::Context(2)).unwrap();
        for (n, e, c) in targets {
            tw.start_struct(&TLVTag::Anonymous).unwrap();
            tw.u64(&TLVTag::Context(1), *n).unwrap();
            tw.u16(&TLVTag::Context(3), *e).unwrap();
            tw.u32(&TLVTag::Context(4), *c).unwrap();
            tw.end_container().unwrap();
        }
        tw.end_container().unwrap();
    })
}

/// BasicInformation::NodeLabel
pub fn write_node_label(label: &str) -> Vec<u8> {
    write_attr(CL_BASIC_INFO, 5, |tw| tw.utf8(&TLVTag::Context(2), label).unwrap())
}

/// UserLabel::LabelList := [(label, value)]
pub fn write_user_labels(entries: &[(&str, &str)]) -> Vec<u8> {
    write_attr(CL_USER_LABEL, 0, |tw| {
        tw.start_array(&TLVTag::Context(2)).unwrap();
        for (l, v) in entries {
            tw.start_struct(&TLVTag::Anonymous).unwrap();
            tw.utf8(&TLVTag::Context(0), l).unwrap();
            tw.utf8(&TLVTag::Context(1), v).unwrap();
            tw.end_container().unwrap();
        }
        tw.end_container().unwrap();
    })
}

/// Run one invoke (timed if the request says so) on a fresh exchange.
pub async fn invoke(ex: &mut Exchange<'_>, req: &[u8], timed: bool) -> Answer {
    imdrv::do_request(ex, timed.then_some(5000), 0, imdrv::OP_INVOKE_REQ, req).await
}

pub async fn write(ex: &mut Exchange<'_>, req: &[u8]) -> Answer {
    imdrv::do_request(ex, None, 0, imdrv::OP_WRITE_REQ, req).await
}

/// Extract the public key (65 bytes, uncompressed point) from the NOCSR elements of a CSRResponse value.
pub fn csr_pubkey(csr_response_fields: &[u8]) -> Option<Vec<u8>> {
    // the PKCS#10 request carries the key as a BIT STRING: 03 42 00 04 <64 bytes>
    let pos = csr_response_fields.windows(4).position(|w| w == [0x03, 0x42, 0x00, 0x04])?;
    csr_response_fields.get(pos + 3..pos + 3 + 65).map(|s| s.to_vec())
}

#[allow(dead_code)]
pub fn unused(_: NonZeroU8, _: MessageMeta) {}
