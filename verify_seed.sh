#!/bin/bash
# usage: verify_seed.sh <worktree> <demo-filter-or-test-args>
# Confirms a seeded change: full suite with the patch passes (705), demo fails with it and passes without.
WT=$1; shift
cd $WT || exit 2
export CARGO_TARGET_DIR=$WT/target
SUITE="cargo nextest run --workspace --no-fail-fast --tool-config-file pb:/w/lib/nextest.toml --profile pb --test-threads 8 --offline"
git checkout -q -- . ; git clean -fdq rs-matter rs-matter-macros 2>/dev/null
git apply out/patch.diff || { echo "PATCH DOES NOT APPLY"; exit 2; }
echo "--- full suite with patch"; $SUITE 2>&1 | grep -E "Summary|FAIL " | sort -u
git apply out/demo.diff || { echo "DEMO DOES NOT APPLY"; exit 2; }
echo "--- demo with patch"; $SUITE "$@" 2>&1 | grep -E "Summary|FAIL |PASS " | sort -u
git apply -R out/patch.diff
echo "--- demo without patch"; $SUITE "$@" 2>&1 | grep -E "Summary|FAIL |PASS " | sort -u
git apply -R out/demo.diff
git status --short | head -5
