#!/usr/bin/env python3
"""Regenerates /verif/MANIFEST.json from the table below (keeps it schema-valid)."""
import json, subprocess

props = [json.loads(l) for l in open('/verif/properties.jsonl')]
ids = [p['id'] for p in props]

hook_commits = subprocess.run(
    "git -C /repo log --format=%h --grep='^verif:'", shell=True, capture_output=True, text=True
).stdout.split()

CHECKS = {
 "C01": dict(cat="model_checking",
   text="Two real nodes run the real CASE initiator and responder over an adversarial network under a virtual clock. Exhaustive within the catalogs: every credential configuration (valid shapes; look-alike signer, wrong operational key, expired / not-yet-valid, different roots on either side) untouched, and for the acceptable ones every single attacker move on every first transmission of every handshake datagram - per TLV field bit flips / deletion / truncation / transplant from another honest handshake, header bit flips, loss, duplication, stale replay (thorough: every single bit of every datagram, and moves crossed with one extra loss) - on the full and on the resumption handshake. Oracle on both session tables: sessions only for acceptable credentials, bound to the right fabric / node id / CATs, directional keys equal whenever both ends hold a session, no panic, no hang, no datagram storm.",
   note="Cryptographic hardness assumed; invalid credentials limited to what the public generators can express (field-level certificate defects are C19's); one attacker move (+ one loss) per execution.",
   tech="exhaustive single-fault injection over the message/field alphabet on the real two-node handshake (bounded fault enumeration with a reference predicate)"),
 "C02": dict(cat="model_checking",
   text="Two real nodes run the real PASE initiator and responder over the adversarial network and virtual clock. Exhaustive within the catalogs: passcode pairs with and without an open window; a second concurrent initiator; 19/20/21 consecutive wrong attempts; every single attacker move of the C01 catalog on every PASE datagram (thorough: every bit); nine special / invalid curve points in place of pA and pB; the window state machine (close, close-and-reopen, expiry) placed before the delivery of each handshake datagram (thorough: crossed with each loss). Oracle: a session comes into existence only while a window is open, only with the right passcode and an unmodified handshake; keys agree when both ends hold one; failed proofs are counted and the window is revoked after twenty; the node is advertised as commissionable iff a window is open.",
   note="Cryptographic hardness assumed; expiry polling by InteractionModel::run is outside this harness (an expired window closes at the next PASE request).",
   tech="exhaustive single-fault injection over the message/field alphabet and window-action placement on the real two-node handshake"),
 "C03": dict(cat="exploration",
   text="On two real nodes with pre-established CASE / PASE sessions (plus a second, differently keyed live session at each end), every datagram of an honest conversation - request of every length of a boundary catalog, reliable and not, the reply with piggy-backed acknowledgement, standalone acknowledgements, and a group data message per length - is attacked before delivery with every single-bit flip of the whole datagram, every truncation, two extensions, another live session's id, counter +-1 and delivery to the opposite direction (group messages also: counter moved far ahead / behind, another sender id, another group id the node has a key for); after each injection the destination's session-table projection (receive windows incl. the per-sender group windows, transmit counters, exchange slots, keys, flags) must be bit-identical and nothing may reach the application; the untouched datagram must then be accepted with identical protocol id, opcode and payload.",
   note="Unicast CASE / PASE sessions and group data messages of one sender (group control / MCSP messages not swept); header shapes limited to what the sending API produces; replay of unaltered datagrams belongs to C04/C09.",
   tech="bounded exhaustive input (mutation) enumeration on the real receive path with a state-invariance oracle"),
 "C04": dict(cat="model_checking",
   text="All histories of offered counters up to the stated depth over a relative boundary alphabet are executed on the real receive window (Session / GroupCtrStore) and compared step by step with a set-of-accepted-counters reference; states deduplicated on a canonical projection.",
   note="Assumes the window is only reached through post_recv; absolute counter values matter only through their distance to 0 / 2^32-1 (capped at 64); bounded depth.",
   tech="explicit-state BFS over operation histories of the real implementation with a reference model"),
 "C05": dict(cat="exploration",
   text="Full product, within the stated catalogs, of ACL entries x fabric placements x accessors x element access declarations x operations x paths, evaluated on the real AccessReq::allow / Accessor::is_endpoint_accessible and compared with an independent reference written from the property text.",
   note="aux_acl_enabled=false; identifier values outside the catalogs behave like the catalog representatives (renaming symmetry); at most two ACL entries installed at a time.",
   tech="bounded exhaustive configuration/input enumeration against a reference model"),
 "C06": dict(cat="exploration",
   text="A real device (Matter + InteractionModel + responder) over a fully parameterised, instrumented data model, and a client node with pre-established CASE sessions on two fabrics and a PASE session that sends raw Interaction Model requests. Full product, within the catalogs, of 2 node compositions x access-control configurations (privilege none / view / operate / manage / admin x target shape all / one endpoint / one cluster / endpoint+cluster / two targets) x 3 requesters x operations: reads of every path over endpoint {*,0,1,2,absent} x cluster {*,A,B,absent} x attribute {*, five access classes, global, absent}, fabric-filtered or not, lists of two paths in both orders; writes and invocations of every concrete and endpoint-wildcard path x {untimed, timed, window expired, timed flag without window, window without flag}; multi-element requests. Oracle: a reference derived from the node composition, the ACL and the access declarations - the data returned, the writes / invocations that reach the handlers, the fabric context handed to the handlers and the statuses of concrete paths.",
   note="Events are not part of this check; the access-check function over the full ACL space is C05's subject; where several reasons apply to a refused concrete path any of the corresponding statuses is accepted.",
   tech="bounded exhaustive configuration / input enumeration on the real two-node system against a reference model"),
 "C07": dict(cat="model_checking",
   text="The C08 world and its explicit-state BFS over operation histories (commissioning steps, RemoveFabric of the own and of another fabric, fail-safe expiry by the clock / ArmFailSafe(0) / RevokeCommissioning, restart, store failures), with operational sessions set up by the harness as soon as a fabric exists, explored from a factory-fresh node, a node with one fabric and a node with two fabrics. After every operation: every usable secure session in the device's table must be bound to a fabric that still exists and is the very fabric the session was established for (not a later fabric that received the same local index); removing a fabric leaves the sessions of the other fabrics alone.",
   note="Session-resumption records and subscriptions of a removed fabric are not observed by this check (no real CASE / subscription traffic in this world); ACL entries and group keys live inside the fabric object and are covered by the configuration comparison of C08.",
   tech="explicit-state BFS over operation histories of the real implementation with a state invariant"),
 "C08": dict(cat="model_checking",
   text="Explicit-state BFS over operation histories (states rebuilt by re-execution, deduplicated on the node's configuration in memory, the persisted blobs, the fail-safe state, the sessions and the harness bookkeeping) of a real device that runs the real root-endpoint data model over a recording key-value store, driven by raw Interaction Model commands over a PASE session and over CASE sessions of the fabrics that exist. Alphabet: ArmFailSafe 60 s / 0 s over PASE and CASE, CSRRequest for AddNOC / UpdateNOC, AddTrustedRootCertificate, AddNOC, UpdateNOC, ACL write, UpdateFabricLabel, KeySetWrite, RemoveFabric, CommissioningComplete from the right and the wrong context, OpenBasicCommissioningWindow, RevokeCommissioning, 61 s pass, restart, next / second-next store operation fails; from a factory-fresh node and from a node with one commissioned fabric. Oracle: a reference state machine for the answers to the credential commands (order, once each, arming context only), and all-or-nothing: whenever the fail-safe is not armed the fabrics / ACLs / labels / group keys in memory and the persisted fabric, basic-information and network blobs equal the last committed configuration, nothing of a pending commissioning is persisted while it is armed, the fail-safe state follows the reference, and a restart comes up with exactly the committed configuration.",
   note="Operational sessions are set up by the harness with pre-established keys (CASE itself is C01's subject); the Ethernet build has no network credentials to add (the persisted networks blob is compared); a change outside a fail-safe whose store fails may stay in memory until the next restart (observed, not judged).",
   tech="explicit-state BFS over operation / fault / crash histories of the real implementation with a reference model"),
 "C09": dict(cat="model_checking",
   text="Two real Matter nodes with a pre-established secure session under a virtual clock and an adversarial datagram network: every schedule with at most k non-default adversary decisions (drop, duplicate, reorder, timer-first) is executed to completion, from the FIFO policy and from 'drop the first n datagrams of one direction' policies (n up to all), for CASE and PASE sessions and three receiver behaviours; oracles on every execution: application sees a duplicate-free in-order prefix, send is Ok only if delivered, fails with TxTimeout when everything is lost, succeeds when a transmission and the acknowledgement got through, back-off respected, duplicates re-acknowledged, sender never hangs.",
   note="Latency >= 1 ms, adversary acts at quiescent points; datagrams attributed to messages by size class and plain-header counter; two messages on one exchange per execution.",
   tech="stateless deviation-bounded DFS (iterative context bounding) over environment decisions of the real implementation"),
 "C10": dict(cat="model_checking",
   text="Two real nodes, two pre-established sessions between them (CASE and PASE) plus a third session of another peer at the device, a responder pool of two handlers. Part E: the client opens two to four concurrent exchanges on one or both sessions, each asking the device's handler for one behaviour (answer promptly, answer after the client gave up, accept and never answer, drop the exchange before / after reading); every schedule with at most k non-default adversary decisions (drop, duplicate, reorder, timer first, the first session vanishing at the device or at the client, the first session being marked expired at the device) is executed; then 60 s of quiet virtual time and a probe exchange on each session. Part F: every forged message (target node and session x honest / fresh exchange id x initiator flag x five opcode kinds x reliable x acknowledgement) at four moments of an honest held exchange, and pairs of them, with the exchange table compared before / after against the matching rule. Oracles: a reply only ever reaches the exchange that asked, a handler invocation only sees the messages of its own exchange and session, nothing is handled twice, only initiator messages of an exchange-opening kind on a non-expired session open an exchange, every client call returns, no exchange slot stays occupied, and the probes are answered.",
   note="A message addressed to a live, owned exchange whose owner is busy sending occupies the single receive slot until the owner's MRP deadline (head-of-line blocking by design, bounded by about 6 s); the probe on that very session is then not owed an answer. Group and unsecured sessions are not part of the forged-message sweep.",
   tech="stateless deviation-bounded DFS over environment decisions of the real two-node system + exhaustive forged-message enumeration with a per-step conformance check of the exchange table"),
 "C12": dict(cat="model_checking",
   text="BFS over histories of use / use-with-failing-store / burst-to-next-store-point / restart (check-in: also crash-after-use, invalidate, owed persist) on the three real counters through their real persistence paths over a recording KV store, from stored boundaries absent, small and next to the range wrap; oracles: no value twice, and every value covered by the durable boundary at the moment of use.",
   note="Fewer than one full range consumed per history; group values count as used when initiate_group returns an exchange carrying them; the check-in application follows the interface contract.",
   tech="explicit-state BFS over operation/crash histories of the real implementation with a reference model"),
 "C13": dict(cat="model_checking",
   text="BFS over histories of subscribe / two-chunk report reads / report ok or fail / attribute, cluster and endpoint changes / coalescing bursts / reporter iterations (remove-expired, report-or-purge) / unsubscribe / clock ticks on the real Subscriptions<2> table; in every visited state two bounded-liveness runs follow the table's own deadlines (all further reports succeed / all fail) and require that every live subscriber ends up knowing every current value, that failing subscriptions get no report attempt after max interval, and that min/max intervals are respected.",
   note="Model level: reads are should_report_attr decisions; events and the wire/chunk encoding are not part of this check; 'eventually' = within 16 reporter iterations at the announced deadlines.",
   tech="explicit-state BFS over operation histories of the real implementation with a bounded-liveness oracle per state"),
 "C14": dict(cat="exploration",
   text="The C06 world with an administrator as requester. Full sweep, within the bounds, of node compositions whose attribute values are octet strings and lists of octet strings with sizes stepped byte by byte across every boundary (an octet string of every size 0..1300 next to fixed ones, every size 1000..1260 alone and after a small value in every request shape, lists of 0..40 items of every size 0..420, lists with items as large as a message, 1..60 attributes of three sizes on one and two endpoints) x request shape (wildcard, concrete paths, reversed) x data version filter (none, matching, stale) x read / subscription priming; plus five kinds of node change applied while the answer is being produced. Oracle: the chunks reassemble to every selected value exactly once (lists: whole or empty list followed by appended items reassembling to the original), each chunk decodes on its own and fits 1280 bytes, only the last chunk ends the interaction, no empty chunks, the interaction terminates.",
   note="The transmit buffer size is a compile-time constant of the build under test and is not varied (value sizes are swept across its boundaries instead); a value too large for any message (from 1100 bytes on) may be answered with 'resource exhausted'; event reports and event filters are not part of this check.",
   tech="bounded exhaustive input / configuration enumeration on the real two-node system against a reassembly oracle"),
 "C15": dict(cat="model_checking",
   text="The wire log of every execution of the C09 exploration (all schedules within the deviation bound, CASE/PASE, all receiver behaviours and loss policies) plus a pipelining client against an acknowledge-then-reply handler is checked: datagrams with equal (sender, session id, counter) must be byte-identical, and first transmissions per sender and session must carry strictly increasing counters.",
   note="Covers MRP traffic on pre-established sessions; handshake and IM traffic are added to this oracle by the harnesses of C01/C02/C13 when built; locally chosen session/exchange id uniqueness is checked with C20.",
   tech="stateless deviation-bounded DFS over environment decisions with a wire-log invariant"),
 "C16": dict(cat="exploration",
   text="Bounded exhaustive input enumeration on the real codec: every byte string up to a length bound, a grammar-directed malformed set with boundary length fields up to 2^64-1, every value tree over boundary alphabets round-tripped, and every public derived wire decoder fed with all of these plus single-byte/bit mutations of valid encodings; all public accessors called on each input, with overflow checks on and a hang watchdog.",
   note="Checked build has overflow checks and debug assertions on; values beyond the boundary alphabets, strings above 65537 bytes and trees above 4 nodes are outside the bound.",
   tech="bounded exhaustive input enumeration against round-trip / no-panic / in-bounds oracles"),
 "C17": dict(cat="exploration",
   text="Per format (message header, protocol header, status report, the five BDX message layouts, check-in message, base-38, QR payload, manual pairing code, BLE advertisement, mDNS announcement / query / answer): every combination of boundary field values is encoded with the real encoder, decoded with the real decoder and compared field by field; every byte string up to a small length and every truncation / extension / per-byte substitution of valid encodings is offered to every decoder, which must return a value or an error, terminate, and return only values that re-encode to the input; manual pairing codes: every single-digit substitution, every adjacent transposition and every out-of-range digit group (with a correct check digit) of the generated codes must be refused; base-38: the decoder must agree with an independent reference decoder on every text of the catalog, refusing invalid characters, impossible chunk lengths and out-of-range chunks; check-in: every single bit of a message is protected.",
   note="The certificate conversion between Matter and X.509 form is exercised through C19 only (each generated certificate is converted for signing and again for verification); the certification declaration decoder is not covered. Field values between the boundary values are assumed to behave like them.",
   tech="bounded exhaustive input enumeration against round-trip / refusal / no-panic oracles and an independent reference decoder"),
 "C18": dict(cat="model_checking",
   text="Two real Btp ends joined by FIFO queues: BFS over all interleavings of submit/poll/deliver/fetch/ack-timer steps (incl. states next to the 8-bit sequence wrap) with delivery, window, ack-deadline and bounded-liveness oracles in every state; plus, at every state of a conforming conversation, injection of a full boundary catalog of hostile data and handshake segments against a reference of what must be refused.",
   note="GATT is ordered and lossless; ack deadline checked when the application has fetched every complete message; a hostile handshake on an established session only has to be survived.",
   tech="explicit-state BFS over interleavings of the real implementation + exhaustive fault (segment) injection per visited state"),
 "C19": dict(cat="exploration",
   text="Full product, within the catalogs, of valid base chains (with / without intermediate, fabric id present / absent in ICAC and RCAC, 0-3 CATs, unbounded / windowed / exactly-now validity, root path length, harmless extra key-usage bits and non-critical unknown extensions, reliable clock vs last-known-good time) x every single defect (one signature bit of each certificate - thorough: every bit -, each issuer-name attribute, authority / subject key ids, each validity bound incl. off-by-one second, each basic-constraints / key-usage / extended-key-usage rule of leaf and authorities, path length, critical unknown extension, missing / foreign node and fabric ids, swapped / repeated certificates, leaf as authority, authority as leaf, look-alike root, broken root signature, leaf key not the requested one, fabric already present) x five real entry points: the chain verifier, AddTrustedRootCertificate + CSRRequest + AddNOC, CSRRequest + UpdateNOC on the fail-safe context, and a real CASE handshake with the chain presented by the initiator and by the responder. Oracle: a predicate on the generator parameters - accepted exactly when no defect was applied.",
   note="Certificates come from a harness-side writer; the to-be-signed bytes are produced by the repo's own TLV->X.509 conversion (C17's subject). One defect per chain. Not judged (reported as observations): fabric id of an authority differing from the leaf's, root offered as intermediate, CA certificate as leaf at the bare verifier API.",
   tech="bounded exhaustive input enumeration (single-fault catalog over generated chains) against a reference predicate, on the real verification / installation / handshake paths"),
 "C20": dict(cat="model_checking",
   text="One real device and up to 19 real initiator nodes over the adversarial network and virtual clock. Exhaustive within the bounds: every sequence of up to k attempts over 13 attempt kinds (CASE/PASE complete, initiator vanishing after its n-th handshake message, n-th message garbled, wrong passcode), sequential or concurrent; the device's responder future cancelled and restarted after every number of polls up to a bound during each attempt kind; 15-18 completed or abandoned handshakes against the 16-slot session table. After 200 s of quiet virtual time the device's tables must hold no reserved session slot and no occupied exchange slot, no more secure sessions than handshakes its side completed, no session with a live exchange may have been evicted, and a fresh CASE handshake and (window open) a fresh PASE handshake must succeed (retrying on busy).",
   note="An idle unsecured session without exchanges counts as free (evictable on demand); the mDNS resolve/browse rendezvous slots are not driven; initiators that are told busy retry up to three times.",
   tech="exhaustive enumeration of bounded attempt sequences and cancellation points on the real multi-node system, with a state invariant at the horizon and a liveness probe"),
}

NOT_BUILT = "check not built yet at this commit (planned, see DESIGN.md)"

m = {
 "version": 1,
 "setup_cmd": "cd /verif/mc && CARGO_NET_OFFLINE=true cargo build --release --offline",
 "hooks": {
   "guard": "cargo feature `verif` of the rs-matter crate",
   "enable": "/verif/mc/Cargo.toml depends on /repo/rs-matter by path with features [..., \"verif\"]; ./check rebuilds it from the current working tree",
   "baseline_off_cmd": "cd /repo && cargo nextest run --workspace --no-fail-fast --tool-config-file pb:/w/lib/nextest.toml --profile pb --test-threads 8 --offline",
   "source_commits": hook_commits,
   "add_only": True,
 },
 "engines": [{"name": "mc", "path": "/verif/mc", "serves_properties": sorted(CHECKS),
              "kind_free_text": "explicit-state BFS / stateless deviation-bounded DFS / bounded exhaustive enumeration over the real rs-matter code under controlled time, network, RNG and storage seams"}],
 "checks": [],
 "not_applicable": [],
 "notes": "See DESIGN.md. Properties listed under not_applicable with reason 'check not built yet' are not claimed at this commit.",
}
for i in ids:
    if i in CHECKS:
        c = CHECKS[i]
        m["checks"].append({
            "property_id": i,
            "quick_cmd": f"./check {i} --tier quick",
            "thorough_cmd": f"./check {i} --tier thorough",
            "evidence_file": f"/verif/evidence/{i}.json",
            "replay_cmd_template": f"./check {i} --replay {{path}}",
            "engine": "mc",
            "level_claimed": {"category": c["cat"], "text": c["text"], "design_ref": f"DESIGN.md section 3 {i}"},
            "level_note": c["note"],
            "technique": c["tech"],
        })
    else:
        m["not_applicable"].append({"property_id": i, "reason": NOT_BUILT})
json.dump(m, open('/verif/MANIFEST.json', 'w'), indent=1)
print("checks:", [c["property_id"] for c in m["checks"]])
